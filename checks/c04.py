"""C04 — compilation is total: code or located diagnostics, never a panic or a hang (DESIGN.md §5 C04)."""
import vcheck, json

PID = "C04"
MODULES = ["BeffVerif.Props.C04"]
AUDIT = "BeffVerif/Audit/C04.lean"
TAGS = ("c04.",)

def engine(chk, lines):
    out, info = vcheck.two_stage(chk, lines, "compile", "prog-total")
    # remember the compile replies for the location tie
    return out

def known(chk):
    open_k = [k for k in chk.known]
    def m(req, ir, orc, hyps):
        # C04 findings are identified by the panic site / the source snippet that reaches it
        for k in open_k:
            if k.get("panic_site") and k["panic_site"] in orc + ir and k.get("needle") and k["needle"] in req:
                return k["what"]
        return None
    return m

def loc_pass(seed, count, label):
    """tie for Location::build / span_to_loc: every diagnostic location of the real compiler vs the Lean `spanToLoc`"""
    def p(chk):
        lines = chk.gen_js("prog-total", seed, count, 2)
        s1, rc, err = chk.run_impl("compile", lines)
        reqs, impl = [], []
        for l, r in zip(lines, s1):
            rep = vcheck.split_reply(r)[0]
            if not rep.startswith("(diags"):
                continue
            try:
                x = vcheck.sx_parse(rep); q = vcheck.sx_parse(l)
            except Exception:
                continue
            files = {f[0][1]: f[1][1] for f in q[3]}
            for d in x[1:]:
                if d[0] != "d": continue
                fname = d[1][1]
                if fname not in files: continue
                lo, hi, l0, c0, l1, c1 = d[2:8]
                reqs.append(f'(loc "{files[fname]}" {lo} {hi})')
                impl.append(f"(loc {l0} {c0} {l1} {c1})\t(oracle ok)")
        reqs, impl = reqs[:4000], impl[:4000]
        return vcheck.corr_pass(chk, "loc", reqs, label, engine=lambda c, ls: impl) if reqs else {"requests": 0, "mismatch": 0, "oracle_fail": 0, "known": 0, "nontrivial": 0}
    return p

def _pass(seed, count, label):
    def p(chk):
        lines = chk.gen_js("prog-total", seed, count, 4)
        return vcheck.corr_pass(chk, "prog-total", lines, label, engine=engine, oracle_filter=vcheck.tag_filter(TAGS), known_matcher=known(chk),
                                nontrivial=lambda r, i: True)
    return p

def _corpus(chk):
    lines = vcheck.corpus_lines(PID)
    return vcheck.corr_pass(chk, "prog-total", lines, "total(corpus)", engine=engine, oracle_filter=vcheck.tag_filter(TAGS), known_matcher=known(chk))

RULE = ("projects: valid TsCore programs (30%), programs with 1–2 MODELLED errors (undefined reference, Partial/Required/Pick/Omit of a non-object, `symbol`, wrong type-argument "
        "count; 30%), textually mutated sources (deleted/inserted characters, 33 unsupported or malformed type snippets, duplicate default exports, self-referential aliases, "
        "missing buildParsers; 20%), two-file projects with named/type-only/renamed/namespace/missing imports, cycles and export-star (20%). The REAL extract+emit_code runs under "
        "catch_unwind with a panic-location hook and a wall-clock watchdog (hangs are bisected); successful modules are loaded against the real runtime and every requested parser is "
        "exercised. Tie: outcome class vs the Lean compiler model (modelled kinds) and every diagnostic location vs the Lean span_to_loc. Oracle: no panic/abort/hang, ≥1 diagnostic "
        "or code, diagnostic file ∈ project and range/line/column inside the file, module loads and builds every requested parser")

def run(chk):
    chk.build_rust(); chk.build_js()
    quick = chk.tier == "quick"
    passes = [_corpus] + ([_pass(chk.seed * 100 + 13, 3000, "total(random)"), loc_pass(chk.seed * 100 + 14, 1500, "loc(diagnostics)")] if quick else
                          [_pass(chk.seed * 100 + k, 20000, f"total(random#{k})") for k in range(6)] + [loc_pass(chk.seed * 100 + 50 + k, 8000, f"loc#{k}") for k in range(3)])
    return vcheck.generic_run(chk, MODULES, AUDIT, passes,
        ["C04: tools/translate/panic_sites.py (regex inventory of panic-capable and looping sites; test modules cut by brace counting)",
         "C04: Model/Totality.lean classifies the sites by hand (class `invariant` is an argument in prose, not a Lean proof); the swc parser, Rust stack depth and allocation "
         "failures are outside the model and are only observed by the search",
         "C04: Model/Totality.lean models span_to_loc / lookup_char_pos (line = 1 + newlines before, column = characters since the line start)"],
        ["compile_total for the REAL compiler is not a theorem: Lean proves the inventory obligation, the location lemmas and totality of the model; panics / overflows / hangs are found by search only",
         "reachable sites recorded as findings: D2 (printer unreachable! on Not<…> from Exclude<number,1>), D4 (self-referential alias overflows the stack in the printer)"],
        RULE, translators=("panic_sites.py",))

def replay(chk, path):
    chk.build_rust(); chk.build_js(); chk.build_lean(MODULES)
    lines = [l for l in open(path).read().split("\n") if l.strip() and not l.startswith(";")]
    st = vcheck.corr_pass(chk, "prog-total", lines, "total(replay)", engine=engine, oracle_filter=vcheck.tag_filter(TAGS), known_matcher=known(chk))
    print(st)
    return chk.finish("proof", {"evaluations": len(lines), "distinct_nontrivial": st["nontrivial"]})
