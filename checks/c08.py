"""C08 — meaning-preserving rewrites of the source do not change validators (DESIGN.md §5 C08)."""
import vcheck

PID = "C08"
MODULES = ["BeffVerif.Props.C08", "BeffVerif.Props.C08Decls", "BeffVerif.Props.C08Frag"]
AUDIT = "BeffVerif/Audit/C08.lean"
TAGS = ("c08.",)
HYP = {"NoNamingNearUnion": "D11", "NoNamedIntersectionMember": "D39", "NoNamedSharedKeyInIntersection": "D39b", "NoNamingWithRecursion": "D41"}

def known(chk):
    base = vcheck.known_by_hyp(chk, HYP)
    def m(req, ir, orc, hyps):
        # only a hash256 difference can be a manifestation of the naming findings; different acceptance never is
        if "c08.validate" in orc or "c08.outcome" in orc:
            return None
        return base(req, ir, orc, hyps)
    return m

def _pass(seed, count, nvals, label):
    def p(chk):
        lines = chk.gen_js("prog-rewrite", seed, count, nvals)
        return vcheck.corr_pass(chk, "prog-rewrite", lines, label, engine="two-stage", oracle_filter=vcheck.tag_filter(TAGS),
                                known_matcher=known(chk), nontrivial=lambda r, i: "1" in i and "0" in i)
    return p

def _corpus(chk):
    lines = vcheck.corpus_lines(PID)
    return vcheck.corr_pass(chk, "prog-rewrite", lines, "rewrite(corpus)", engine="two-stage", oracle_filter=vcheck.tag_filter(TAGS), known_matcher=known(chk))

RULE = ("generated TsCore programs are rewritten by 1–4 random rewrites (permute union/intersection members, object members, declarations; "
        "parentheses; readonly; regroup unions; generic identity wrapper; introduce / inline / rename alias; interface ↔ object alias; JSDoc "
        "comments), both programs are compiled by the REAL compiler, loaded against the REAL runtime and compared on the same values "
        "(acceptance bits) and on hash256(); the Lean compiler model predicts both bit vectors (tie). hash256 equality is required without "
        "exception for rewrites that introduce no names; for naming rewrites a difference is accepted only under the recorded hypotheses")

def run(chk):
    chk.build_rust(); chk.build_js()
    quick = chk.tier == "quick"
    passes = [_corpus] + ([_pass(chk.seed * 100 + 5, 3000, 10, "rewrite(random)")] if quick else
                          [_pass(chk.seed * 100 + k, 6000, 16, f"rewrite(random#{k})") for k in range(6)])
    return vcheck.generic_run(chk, MODULES, AUDIT, passes,
        ["C08: same models as C01 (TsCore, lowering, IR, printer, reference semantics); the rewrites are applied by harness/js/mode_prog.mjs on the TsCore term and rendered as TypeScript",
         "C08: hash256 of the two real validators is compared directly (no model of the token stream is involved)"],
        ["rewrite_validate for ALL rewrites as one theorem over rewrite derivations — proved per rewrite at the reference level only (union/intersection/member permutation, paren, readonly, alias unfold, identity wrapper, declaration reordering — spec_decls_perm); renaming and interface↔alias are covered by the correspondence only",
         "rewrite_hash256: false on the current code for naming rewrites (D11, D39, D41); for name-free rewrites it is decided by direct comparison of the two real digests"],
        RULE)

def replay(chk, path):
    chk.build_rust(); chk.build_js(); chk.build_lean(MODULES)
    lines = [l for l in open(path).read().split("\n") if l.strip() and not l.startswith(";")]
    st = vcheck.corr_pass(chk, "prog-rewrite", lines, "rewrite(replay)", engine="two-stage", oracle_filter=vcheck.tag_filter(TAGS), known_matcher=known(chk))
    print(st)
    return chk.finish("proof", {"evaluations": len(lines), "distinct_nontrivial": st["nontrivial"]})
