"""C14 — watch-mode rebuilds depend on current file contents only, not on edit history (DESIGN.md §5 C14)."""
import re, vcheck

PID = "C14"
MODULES = ["BeffVerif.Props.C14"]
AUDIT = "BeffVerif/Audit/C14.lean"
TAGS = ("c14.",)

def view(r):
    return re.sub(r' "[0-9a-f]{16}"', "", r)

def _pass(seed, count, label, lines_fn=None):
    def p(chk):
        lines = lines_fn(chk) if lines_fn else chk.gen_js("prog-watch", seed, count)
        st = vcheck.corr_pass(chk, "watch", lines, label, engine="rs", oracle_filter=vcheck.tag_filter(TAGS), view=view,
                              nontrivial=lambda r, i: "diags" in i and "ok" in i)
        nops = [l.count("(u ") + l.count("(r)") for l in lines]
        chk.coverage.setdefault("histories", {})[label] = {"count": len(lines), "ops_min": min(nops or [0]), "ops_max": max(nops or [0]),
            "with_broken_update": sum(1 for l in lines if re.search(r'\(u "[^"]+" 3\)', l)), "with_unresolvable_update": sum(1 for l in lines if re.search(r'\(u "[^"]+" 2\)', l))}
        return st
    return p

RULE = ("projects from the C09 split generator; every file gets four contents: the original, an edited valid one (a declaration or an export changed), an unresolvable one (a "
        "reference to a name imported from a file that does not export it / from nowhere) and a syntactically broken one. A history is 4–14 random operations (update file f to "
        "variant k | rebuild), optionally followed by repairing every file, and a final rebuild. The REAL session API of beff-wasm (update_file_content_inner, "
        "bundle_to_string_inner over the thread-local BUNDLER and LazyFileManager; host functions injected through the `beff_verif` feature) runs the history in one thread; after "
        "every rebuild a FRESH thread (empty cache) builds the same file contents; code + emitted diagnostics must be identical (oracle c14.history). Tie: the Lean session model "
        "instantiated with the module + compiler models predicts the outcome class of every rebuild")

def run(chk):
    chk.build_rust(); chk.build_js()
    quick = chk.tier == "quick"
    passes = [_pass(chk.seed * 100 + 14, 2500, "watch(random)")] if quick else [_pass(chk.seed * 100 + k, 8000, f"watch(random#{k})") for k in range(5)]
    return vcheck.generic_run(chk, MODULES, AUDIT, passes,
        ["C14: the compiler is a PARAMETER of the session model (`World.extract`, a function of the file-manager view): that beff_core::extract only reads files through the "
         "FileManager trait and is deterministic (C10) is trusted; `World.parse` is parse_and_bind with the host resolver, whose answers are constant while the set of files is fixed",
         "C14: hook — cargo feature `beff_verif` of packages/beff-wasm (commit recorded in MANIFEST.hooks): native closures for read_file_content / resolve_import / "
         "emit_diagnostic and String-returning entry points over the SAME inner functions; the JavaScript side (commandeer.ts chokidar loop, bundler.ts fsCache/resolvedCache) is not exercised",
         "C14: in the driver instantiation every file counts as `touched` (the real LazyFileManager caches only fetched files; unobservable under the proved invariant)"],
        ["files DELETED during a session: outside the property's quantifier and outside the model. A file CREATED by its first update is covered since round 5 (one file of a history in three does not exist at the start; the host resolves imports only to existing files, as bundler.ts does; for the model an absent file declares nothing) — restricted to files no other file re-exports from: `export { X } from \"./missing\"` next to an `export *` that also provides X falls through to the star in beff where TypeScript reports the missing module (observed, not claimed)",
         "the TypeScript watch loop itself (which files are watched, chokidar events): not modelled"],
        RULE)

def replay(chk, path):
    chk.build_rust(); chk.build_lean(MODULES)
    lines = [l for l in open(path).read().split("\n") if l.strip() and not l.startswith(";")]
    st = _pass(0, 0, "watch(replay)", lines_fn=lambda c: lines)(chk)
    print(st)
    return chk.finish("proof", {"evaluations": len(lines), "distinct_nontrivial": st["nontrivial"]})
