"""C05 — assignability decisions coincide with inclusion of value sets (DESIGN.md §5 C05)."""
import vcheck

PID = "C05"
MODULES = ["BeffVerif.Props.C05", "BeffVerif.Props.C05Flat", "BeffVerif.Props.C05Tuple", "BeffVerif.Props.C05Union", "BeffVerif.Props.C05ListUnion", "BeffVerif.Props.C05UnionSub"]
AUDIT = "BeffVerif/Audit/C05.lean"
HYP = {"NoObjectUnionOnLeft": "D25", "NoIndexUnionOnRight": "D84"}

def spec_oracle(req, ir, second):
    """second channel of the Lean driver: ((spec yes|no complete|incomplete <witness>) (hyp-failed …)).
    impl `yes` + a concrete exact value of A outside B          -> failure (always sound: the witness is checked by the reference)
    impl `no`  + the COMPLETE enumeration found no such value  -> failure
    an incomplete enumeration without witness decides nothing"""
    if not ir.startswith("(sub "):
        return None
    ans = ir.split()[1].rstrip(")")
    try:
        x = vcheck.sx_parse(second)
        spec = x[0]
        verdict, comp, wit = spec[1], spec[2], spec[3]
    except Exception:
        return "(oracle fail c05.spec-unreadable)"
    if ans == "yes" and verdict == "no":
        return f"(oracle fail c05.unsound witness={vcheck.sx_show(wit)})"
    if ans == "no" and verdict == "yes" and comp == "complete":
        return "(oracle fail c05.incomplete-decision)"
    if ans not in ("yes", "no"):
        return f"(oracle fail c05.no-decision:{ans})"
    return None

def known(chk):
    base = vcheck.known_by_hyp(chk, HYP)
    def m(req, ir, orc, hyps):
        # D25 / D84 only explain the unsound direction
        if "c05.unsound" not in orc:
            return None
        return base(req, ir, "(oracle fail c05.unsound)", hyps)
    return m

def _pass(seed, count, label, lines_fn=None):
    def p(chk):
        lines = lines_fn(chk) if lines_fn else chk.gen_js("sub", seed, count)
        st = vcheck.corr_pass(chk, "sub", lines, label, engine="rs", known_matcher=known(chk), extra_oracle=spec_oracle,
                              nontrivial=lambda r, i: True)
        return st
    return p

def _corpus(chk):
    return _pass(0, 0, "sub(corpus)", lines_fn=lambda c: vcheck.corpus_lines(PID))(chk)

RULE = ("pairs (A, B) over null, boolean, number, string, literals, arrays, tuples with rest, objects with required / optional properties and string index signatures "
        "(declared properties conform to the signature, as TypeScript demands), unions, intersections and up to two named — possibly recursive — object / tuple types; B is A, "
        "a one- or two-step edit of A (drop / add / retype a member, toggle optionality, change a tuple length, widen a literal) or independent; both orders. The REAL "
        "compiler decides `A extends B ? \"yes\" : \"no\"` (frontend lowering, Runtype → SemType, is_subtype). Tie: the Lean port of the engine must give the same answer. "
        "Oracle: the Lean reference enumerates the exact values of A over representatives (all mentioned literals + a fresh number and string, array lengths up to the longest "
        "tuple + 1, probe keys for index signatures) and evaluates them structurally against B; a `yes` with a witness is always a failure, a `no` only when the enumeration was "
        "not cut by a cap")

def run(chk):
    chk.build_rust(); chk.build_js()
    quick = chk.tier == "quick"
    passes = [_corpus] + ([_pass(chk.seed * 100 + 5, 30000, "sub(random)")] if quick else [_pass(chk.seed * 100 + k, 40000, f"sub(random#{k})") for k in range(6)])
    r = vcheck.generic_run(chk, MODULES, AUDIT, passes,
        ["C05: Model/SemType.lean is a hand-written port of semtype.rs / subtype.rs / mapping.rs / the list part of bdd.rs / dnf.rs / mod.rs restricted to the fragment (index "
         "signatures keyed by `string` only; bigint, Date, void/undefined, typed arrays, Map, Set as one opaque bit); fuel replaces Rust recursion",
         "C05: Model/SubSpec.lean (the reference) is trusted to state the intended meaning: exact values on the left (declared properties only, at every depth), structural "
         "reading on the right; its enumeration is complete only when no cap was hit (reported per request)",
         "C05: the source-level observation (`extends` branch) goes through the frontend lowering, which the compiler model of C01 mirrors"],
        ["mapping_is_empty / list_is_empty correct for ALL structured types: not proved (only the scalar fragment is: scalar_subtype_iff_inclusion); decided by correspondence + oracle",
         "termination / fuel adequacy of the memoised co-inductive emptiness check: not proved",
         "D25 (open): unions with two or more object members on the left — the statement is false of the current code (object_union_on_the_left_is_unsound)"],
        RULE)
    return r

def replay(chk, path):
    chk.build_rust(); chk.build_lean(MODULES)
    lines = [l for l in open(path).read().split("\n") if l.strip() and not l.startswith(";")]
    st = _pass(0, 0, "sub(replay)", lines_fn=lambda c: lines)(chk)
    print(st)
    return chk.finish("proof", {"evaluations": len(lines), "distinct_nontrivial": st["nontrivial"]})
