"""C15 — describe() prints TypeScript that compiles back to the same validator (DESIGN.md §5 C15)."""
import vcheck, json

PID = "C15"
MODULES = ["BeffVerif.Props.C15", "BeffVerif.Props.C15Decl"]
AUDIT = "BeffVerif/Audit/C15.lean"
TAGS = ("c15.",)
HYP = {"NoMixedIndexObject": "D43", "NoTemplateAlternation": "D24c", "NoNamingNearUnion": "D11", "NoNamedIntersectionMember": "D39", "NoNamedSharedKeyInIntersection": "D39b", "NoNamingWithRecursion": "D41"}

def engine(chk, lines):
    """generation 1: real compile → real describe(); generation 2: the printed text compiled again by the real compiler;
    both modules evaluated on the same values (acceptance bits, hash256)"""
    s1, rc, err = chk.run_impl("compile", lines)
    s1 = [vcheck.split_reply(x)[0] for x in s1] + ["(compiler-crash)"] * (len(lines) - len(s1))
    st1, _, _ = chk.run_impl_js("prog-describe", [l + "\t" + c for l, c in zip(lines, s1)])
    gen2 = []
    for l, r in zip(lines, st1):
        rep = vcheck.split_reply(r)[0]
        try:
            x = vcheck.sx_parse(rep)
        except Exception:
            x = None
        if isinstance(x, list) and x and x[0] == "described":
            name = "E0"
            src = json.loads('"' + x[1][1] + '"') + f"\nparse.buildParsers<{{ {name}: Codec{name} }}>();\n"
            gen2.append('(x 0 0 (("entry.ts" ' + json.dumps(src) + ')))')
        else:
            gen2.append('(x 0 0 (("entry.ts" "")))')
    s3, _, _ = chk.run_impl("compile", gen2)
    s3 = [vcheck.split_reply(x)[0] for x in s3] + ["(compiler-crash)"] * (len(lines) - len(s3))
    out, _, _ = chk.run_impl_js("prog-describe", [l + "\t" + a + "\t" + b for l, a, b in zip(lines, s1, s3)])
    return out + ["(js-host-crash)\t(oracle fail c04.jscrash)"] * (len(lines) - len(out))

def engine_rt(chk, lines):
    """Runtype level: validators built from the real classes (with descriptions) → real describe() → the text compiled by
    the real compiler → both validators on the same values"""
    st1, _, _ = chk.run_impl_js("rtd", lines)
    gen2 = []
    for r in st1 + ["(host-crash)"] * (len(lines) - len(st1)):
        rep = vcheck.split_reply(r)[0]
        try:
            x = vcheck.sx_parse(rep)
        except Exception:
            x = None
        if isinstance(x, list) and x and x[0] == "described":
            src = json.loads('"' + x[1][1] + '"') + "\nparse.buildParsers<{ E0: CodecE0 }>();\n"
            gen2.append('(x 0 0 (("entry.ts" ' + json.dumps(src) + ')))')
        else:
            gen2.append('(x 0 0 (("entry.ts" "")))')
    s3, _, _ = chk.run_impl("compile", gen2)
    s3 = [vcheck.split_reply(x)[0] for x in s3] + ["(compiler-crash)"] * (len(lines) - len(s3))
    out, _, _ = chk.run_impl_js("rtd", [l + "\t" + b for l, b in zip(lines, s3)])
    return out + ["(js-host-crash)\t(oracle fail c04.jscrash)"] * (len(lines) - len(out))

def _pass_rt(seed, count, nvals, label):
    def p(chk):
        lines = chk.gen_js("rtd", seed, count, nvals)
        return vcheck.corr_pass(chk, "rtd", lines, label, engine=engine_rt, oracle_filter=vcheck.tag_filter(TAGS), known_matcher=known(chk))
    return p

def known(chk):
    # every finding lists the oracle tags it can explain (known-findings.json `oracle_tags`): the naming findings only
    # explain a hash256 difference, never a different acceptance or a compile failure
    return vcheck.known_by_hyp(chk, HYP)

def _pass(seed, count, nvals, label):
    def p(chk):
        lines = chk.gen_js("prog-describe", seed, count, nvals)
        return vcheck.corr_pass(chk, "prog-describe", lines, label, engine=engine, oracle_filter=vcheck.tag_filter(TAGS), known_matcher=known(chk))
    return p

def _corpus(chk):
    lines = vcheck.corpus_lines(PID)
    return vcheck.corr_pass(chk, "prog-describe", lines, "describe(corpus)", engine=engine, oracle_filter=vcheck.tag_filter(TAGS), known_matcher=known(chk))

RULE = ("generated single-export TsCore programs are compiled by the REAL compiler; the real describe() text of the export is (a) compared "
        "verbatim with the text produced by the Lean model chain (compile model → runtime tree → describe model) and (b) compiled AGAIN by the "
        "real compiler; generation 1 and generation 2 validators are compared on the same values and on hash256(), and the text is checked to "
        "declare every alias once. non-trivial = distinct program")

def run(chk):
    chk.build_rust(); chk.build_js()
    quick = chk.tier == "quick"
    passes = [_corpus] + ([_pass(chk.seed * 100 + 9, 2400, 10, "describe(random)"), _pass_rt(chk.seed * 100 + 10, 1600, 8, "describe(runtypes)")] if quick else
                          [_pass(chk.seed * 100 + k, 6000, 16, f"describe(random#{k})") for k in range(6)] + [_pass_rt(chk.seed * 100 + 20 + k, 6000, 10, f"describe(runtypes#{k})") for k in range(3)])
    return vcheck.generic_run(chk, MODULES, AUDIT, passes,
        ["C15: Model/Describe.lean models describeTypeExpr of every class, describeObjectMember, collectDescribeRefs, BaseRefRuntype.describe and ParserFromRuntype.describe by hand (text level)",
         "C15: the order of union members in the printed text is the compiler's BTreeSet order: Model/IR.lean models the derived Ord of RuntypeKind and the debug_print sort keys; printed names of generic instances are NOT modelled (those programs are decided by the round trip only)"],
        ["describe_roundtrip (compile (parse (describe rt)) ≡ rt) as a Lean theorem — not proved (no Lean parser for the printed sub-language); decided by the real round trip",
         "hash256 equality of the two generations: subject to the naming findings D11/D39/D41 (describe introduces aliases for shared / recursive types) and to D24c (template alternation printed as text)"],
        RULE)

def replay(chk, path):
    chk.build_rust(); chk.build_js(); chk.build_lean(MODULES)
    lines = [l for l in open(path).read().split("\n") if l.strip() and not l.startswith(";")]
    st = vcheck.corr_pass(chk, "prog-describe", lines, "describe(replay)", engine=engine, oracle_filter=vcheck.tag_filter(TAGS), known_matcher=known(chk))
    print(st)
    return chk.finish("proof", {"evaluations": len(lines), "distinct_nontrivial": st["nontrivial"]})
