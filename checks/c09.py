"""C09 — splitting declarations across modules does not change the result (DESIGN.md §5 C09)."""
import vcheck

PID = "C09"
MODULES = ["BeffVerif.Props.C09", "BeffVerif.Props.C09Bind"]
AUDIT = "BeffVerif/Audit/C09.lean"
TAGS = ("c09.",)

def known(chk):
    return vcheck.known_by_hyp(chk, {})

def _pass(seed, count, nvals, label):
    def p(chk):
        lines = chk.gen_js("prog-split", seed, count, nvals)
        st = vcheck.corr_pass(chk, "prog-split", lines, label, engine="two-stage", oracle_filter=vcheck.tag_filter(TAGS), known_matcher=known(chk),
                              nontrivial=lambda r, i: "import" in r or "export-" in r)
        shapes = {}
        for l in lines:
            for k in ("import-named", "import-star", "import-default", "export-local", "export-from", "export-ns", "export-all", "export-default ", "export-default-iface", "import(", " diags break"):
                if k in l: shapes[k.strip()] = shapes.get(k.strip(), 0) + 1
        chk.coverage.setdefault("split_shapes", {}).update({label: shapes})
        return st
    return p

def _corpus(chk):
    lines = vcheck.corpus_lines(PID)
    return vcheck.corr_pass(chk, "prog-split", lines, "split(corpus)", engine="two-stage", oracle_filter=vcheck.tag_filter(TAGS), known_matcher=known(chk))

RULE = ("generated TsCore programs (every declaration reachable from an export) are distributed over entry.ts, 1–3 library files (.ts, .d.ts, .tsx, dir/index.ts, nested "
        "directories) and an optional re-export hub; every cross-file reference picks an export style (export declaration, export list, renamed export, `export default X`, "
        "`export { X as default }`, `export default interface`), an optional hub style (export-from, renamed export-from, export *, export * as, import+export list, namespace "
        "import+export, default re-export) and an import style (named, renamed, type-only, inline `type`, namespace, default, `default as`, import(\"…\") type); local names "
        "collide across files on purpose. 1/6 of the projects get one reference that TypeScript cannot resolve (non-exported local, missing import, name the hub does not "
        "re-export, unresolvable specifier). The REAL compiler compiles the single-file and the multi-file project; both emitted modules run against the REAL runtime on the "
        "same values. Tie: the Lean module model (bind → resolve → flatten → compiler model) predicts both bit vectors / the diagnostic outcome")

def run(chk):
    chk.build_rust(); chk.build_js()
    quick = chk.tier == "quick"
    passes = [_corpus] + ([_pass(chk.seed * 100 + 9, 3000, 6, "split(random)")] if quick else [_pass(chk.seed * 100 + k, 8000, 8, f"split(random#{k})") for k in range(6)])
    return vcheck.generic_run(chk, MODULES, AUDIT, passes,
        ["C09: Model/Modules.lean is a hand-written model of parse_and_bind, get_type_visiting and the Type/QualifiedType walkers for type aliases and interfaces; enums, values "
         "(`typeof`), `declare module`, `import x = require()` and string-named exports are outside the model",
         "C09: module specifier resolution is the host's (TypeScript's resolveModuleName in the real tool, harness/rs resolve() here): import targets are given resolved",
         "C09: harness/js/split.mjs is trusted to render the project term as the TypeScript text it denotes"],
        ["flatten (split p σ) ≃ p for every program and every split σ as ONE theorem (needs invariance of the compiler model under injective renaming of declaration names): "
         "not proved; decided per generated project by the correspondence + the two real compilations"],
        RULE)

def replay(chk, path):
    chk.build_rust(); chk.build_js(); chk.build_lean(MODULES)
    lines = [l for l in open(path).read().split("\n") if l.strip() and not l.startswith(";")]
    st = vcheck.corr_pass(chk, "prog-split", lines, "split(replay)", engine="two-stage", oracle_filter=vcheck.tag_filter(TAGS), known_matcher=known(chk))
    print(st)
    return chk.finish("proof", {"evaluations": len(lines), "distinct_nontrivial": st["nontrivial"]})
