"""C06 — union/intersection/difference/complement are exact set operations (DESIGN.md §5 C06)."""
import vcheck

MODULES = ["BeffVerif.Props.C06", "BeffVerif.Props.C06Sem", "BeffVerif.Props.C06Total"]
AUDIT = "BeffVerif/Audit/C06.lean"

def proof_part(chk):
    ok, out = chk.build_lean(MODULES)
    aok, bad, banned, txt = chk.audit_lean(AUDIT) if ok else (False, [("<build failed>", [])], [], out)
    chk.trusted += [
        "C06: Model/Bdd.lean models subtyping/bdd.rs:50-295 and dnf.rs:56-119 by hand (fuel-indexed recursion)",
        "C06: atoms are propositional variables (the Boolean layer must commute with every reading of the atom tables)",
    ]
    chk.open_obligations += [
        "termination of the REAL recursion is read off the model (Props/C06Total: on ordered diagrams over a set U of atoms the nesting depth of union / intersect / complement is at most |U|+1, of diff |U|+2, and every script of operations over atoms runs to completion: script_total, toBdd_total); that the Rust code recurses as the model does is the correspondence",
        "the SemType / ProperSubtype layer is proved exact in Props/C06Sem.lean for the tags of the C05 fragment (boolean, number, string, null, optional, void/undefined, mapping, list); format / template literal subtypes (sub_vec_* with a non-trivial subtype relation), typed arrays, Map and Set are not modelled",
    ]
    return ok and aok, (out if not ok else txt), bad, banned

def run(chk):
    chk.build_rust()
    pok, ptxt, bad, banned = proof_part(chk)
    quick = chk.tier == "quick"
    stats_all = []
    # corpus first
    import os
    corpus = os.path.join(vcheck.VERIF, "corpus", "C06")
    if os.path.isdir(corpus):
        lines = []
        for f in sorted(os.listdir(corpus)):
            lines += [l for l in open(os.path.join(corpus, f)).read().split("\n") if l.strip() and not l.startswith(";")]
        if lines:
            stats_all.append(vcheck.corr_pass(chk, "bdd", lines, "bdd-ops(corpus)"))
    plans = [(4, 14, 8000), (6, 18, 8000)] if quick else [(4, 10, 40000), (5, 16, 40000), (6, 22, 40000), (7, 26, 10000)]
    for k, (max_atoms, steps, count) in enumerate(plans):
        lines = chk.gen("bdd", chk.seed * 1000 + k, count, max_atoms, steps)
        stats_all.append(vcheck.corr_pass(chk, "bdd", lines, f"bdd-ops(atoms<={max_atoms},steps<={steps})", nontrivial=nontrivial))
    # the type-vector layer: SemTypeOps on scalar types (per-tag merge + literal-set subtypes) vs the port the C06Sem theorems are about
    for k, (steps, count) in enumerate([(12, 20000)] if quick else [(8, 40000), (16, 40000), (30, 20000)]):
        lines = chk.gen("semops", chk.seed * 1000 + 500 + k, count, steps)
        stats_all.append(vcheck.corr_pass(chk, "semops", lines, f"sem-ops(steps<={steps})", nontrivial=lambda r, i: "only" in i or "except" in i))
    if not pok:
        # a proof obligation no longer checks: the search above ran on the implementation; report
        found = any(not s.endswith("no-failing-input-found") for _, s in chk.violations)
        if not found:
            chk.violation("lean-obligation-broken", f"; theorem modules {MODULES} / audit {AUDIT} no longer check\n; not-accepted: {bad}\n; banned tokens: {banned}\n" + "\n".join("; " + l for l in ptxt.split("\n")[-30:]), found_input=False)
    ev = sum(s["requests"] for s in stats_all)
    return chk.finish("proof", {
        "corr_evaluations": ev,
        "corr_distinct_nontrivial": sum(s["nontrivial"] for s in stats_all),
        "corr_mismatches": sum(s["mismatch"] for s in stats_all),
        "corr_oracle_failures": sum(s["oracle_fail"] for s in stats_all),
        "corr_rule": "random op scripts over the real BddOps/bdd_to_dnf/dnf_to_bdd from up to N atoms; every intermediate result is compared as a COMPLETE truth table (all 2^n assignments) between the Rust diagram and the Lean model; independently the Rust result's table is compared with the Boolean combination of the operands' own tables (property oracle, no model involved). non-trivial = script whose final table is neither all-0 nor all-1; distinct = distinct request text. Type-vector layer: random scripts of intersect / union / diff / complement over the real SemTypeOps from 2-9 atoms (string, number, boolean, null, undefined, unknown, never, the absent-property tag, string / number / boolean literals, and object / list atoms as one-node diagrams): every intermediate vector is printed canonically (per tag: none / all / only{…} / except{…}; a structural tag as none / all / the truth table of its diagram over the tag's atoms) and compared with the Lean port (Model/SemType.lean, the subject of Props/C06Sem); oracle: membership of 26 sample values (14 scalar values, 8 truth assignments to the object atoms, 4 to the list atoms) in every result equals the Boolean combination of the operands' memberships, and the vector stays sorted by tag",
        "evaluations": ev,
        "distinct_nontrivial": sum(s["nontrivial"] for s in stats_all),
    })

def nontrivial(req, reply):
    last = reply.rstrip(")").split(" ")[-1].split("/")[-1]
    return "0" in last and "1" in last

def replay(chk, path):
    chk.build_rust()
    chk.build_lean(MODULES)
    lines = [l for l in open(path).read().split("\n") if l.strip() and not l.startswith(";")]
    st = vcheck.corr_pass(chk, "semops" if lines and lines[0].startswith("(sem-ops") else "bdd", lines, "ops(replay)")
    print(st)
    return chk.finish("proof", {"evaluations": len(lines), "distinct_nontrivial": st["nontrivial"]})
