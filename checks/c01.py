"""C01 — generated validators accept exactly the values of the declared type (DESIGN.md §5 C01)."""
import vcheck, re

PID = "C01"
MODULES = ["BeffVerif.Props.C01", "BeffVerif.Props.C01Frag", "BeffVerif.Props.Consts"]
AUDIT = "BeffVerif/Audit/C01.lean"
HYP = {"NoNumberKey": "D21", "IntersectionsOfObjects": "D22"}
BITS = re.compile(r'\((\w+) "([01TF?]*)"\)')

def spec_oracle(req, impl_reply, second):
    """impl acceptance bits vs the Lean reference semantics ⟦·⟧ᵀˢ evaluated by the driver on the same values"""
    if not impl_reply.startswith("(bits"):
        return None
    spec_part = second.split("(hyp-failed")[0]
    ib, sb = BITS.findall(impl_reply), BITS.findall(spec_part)
    if not sb:
        return None
    diffs = []
    for (n1, b1), (n2, b2) in zip(ib, sb):
        for k, (x, y) in enumerate(zip(b1, b2)):
            if y != "?" and x != y:
                diffs.append(f"{n1}#{k}:impl={x},spec={y}")
    return "(spec-differs " + " ".join(diffs[:6]) + ")" if diffs else None

def known(chk):
    base = vcheck.known_by_hyp(chk, HYP)
    return lambda req, ir, orc, hyps: base(req, ir, "(oracle fail c01.spec)", hyps)

def _pass(seed, count, nvals, label):
    def p(chk):
        lines = chk.gen_js("prog", seed, count, nvals)
        return vcheck.corr_pass(chk, "prog", lines, label, engine="two-stage", extra_oracle=spec_oracle, known_matcher=known(chk),
                                nontrivial=lambda r, i: "1" in i and "0" in i)
    return p

def _pass_ops(seed, count, label, lines_fn=None):
    """`keyof T`, `T[K]` and `Exclude<A, B>` (three of the type forms the property lists): the C07 machinery — real compiler + runtime vs the Lean
    port (tie) vs TypeScript's meaning of the operator (reference) — with the failures reported under this property"""
    from checks import c07
    def oracle(req, ir, second):
        o = c07.spec_oracle(req, ir, second)
        return o.replace("c07.", "c01.op-") if o else None
    def p(chk):
        lines = lines_fn(chk) if lines_fn else chk.gen_js("sub-sem", seed, count, 10)
        base = vcheck.known_by_hyp(chk, {"NoObjectUnionOnLeft": "D25"})
        def km(req, ir, orc, hyps):
            if "c01.op-meaning" not in orc or "(exclude " not in req:
                return None
            return base(req, ir, "(oracle fail c01.op-meaning)", hyps)
        return vcheck.corr_pass(chk, "prog", lines, label, engine="two-stage", extra_oracle=oracle, oracle_filter=lambda o: None, known_matcher=km,
                                nontrivial=lambda r, i: "1" in i and "0" in i)
    return p

def _corpus(chk):
    lines = vcheck.corpus_lines(PID)
    return vcheck.corr_pass(chk, "prog", lines, "prog(corpus)", engine="two-stage", extra_oracle=spec_oracle, known_matcher=known(chk))

RULE = ("type-directed random TsCore programs (aliases, generic aliases, interfaces with extends, recursive object types, unions incl. "
        "discriminated and literal unions, intersections, tuples with rest, index signatures, Record/Partial/Required/Pick/Omit/Readonly, "
        "Date/Map/Set/typed arrays, template literals) are printed as TypeScript, compiled by the REAL extract+emit_code, the emitted module is "
        "loaded against the REAL runtime and every exported validator is run on generated members, mutated near-misses and hostile values. "
        "Three bit-vectors per export: implementation, Lean compiler model (lower → IR → printer → runtime model) and the Lean declarative "
        "reference ⟦·⟧ᵀˢ. tie = impl vs model; search = impl vs reference. non-trivial = program with both accepted and rejected values. A second pass takes the `keyof T` / `T[K]` / `Exclude<A, B>` "
        "requests of the C07 generator (objects, unions, index signatures, arrays, tuples with rest indexed by literals, unions of literals and `number`): same three-way comparison "
        "with TypeScript's meaning of the operator as the reference")

def run(chk):
    chk.build_rust(); chk.build_js()
    quick = chk.tier == "quick"
    passes = [_corpus] + ([_pass(chk.seed * 100 + 3, 3000, 16, "prog(random)"), _pass_ops(chk.seed * 100 + 4, 3000, "operators(random)")] if quick else
                          [_pass(chk.seed * 100 + k, 6000, 24, f"prog(random#{k})") for k in range(8)] + [_pass_ops(chk.seed * 100 + 40 + k, 12000, f"operators(random#{k})") for k in range(2)])
    return vcheck.generic_run(chk, MODULES, AUDIT, passes,
        ["C01: Model/{TsCore,IR,Spec}.lean model frontend/mod.rs (extract_type_inner, named definitions, built-ins), ast/runtype.rs any_of/all_of and "
         "print/printer.rs print_runtype for the TsCore fragment by hand; outside the fragment (typeof of values, enums, keyof/indexed/mapped/conditional "
         "types, Exclude, formats, imports) only the C05/C07/C09 checks apply",
         "C01: the swc parser and the TypeScript printer of the harness (tsOf in harness/js/mode_prog.mjs) are trusted to relate the TsCore term and the source text",
         "C01: reference semantics readings S1–S6 (Model/Spec.lean header)"],
        ["C01_main (validate (print (lower t)) v = ⟦t⟧ᵀˢ v) is not proved end-to-end; proved: printer-level invisibility lemmas and reference-level facts (Props/C01.lean); "
         "the chain is otherwise decided by the 3-way correspondence",
         "full-strength statement is false for number-keyed records (D21) and intersections with non-object members (D22): hypotheses NoNumberKey, IntersectionsOfObjects"],
        RULE, translators=("client_consts.py",))

def replay(chk, path):
    chk.build_rust(); chk.build_js(); chk.build_lean(MODULES)
    lines = [l for l in open(path).read().split("\n") if l.strip() and not l.startswith(";")]
    if lines and lines[0].startswith("(sem "):
        st = _pass_ops(0, 0, "operators(replay)", lines_fn=lambda c: lines)(chk)
        print(st)
        return chk.finish("proof", {"evaluations": len(lines), "distinct_nontrivial": st["nontrivial"]})
    st = vcheck.corr_pass(chk, "prog", lines, "prog(replay)", engine="two-stage", extra_oracle=spec_oracle, known_matcher=known(chk))
    print(st)
    return chk.finish("proof", {"evaluations": len(lines), "distinct_nontrivial": st["nontrivial"]})
