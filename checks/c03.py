"""C03 — runtime layer (DESIGN.md §5 C03): Lean theorems over Model/{Validate,Parse,Report}.lean + correspondence
against the REAL runtime classes (type-stripped codegen-v2.ts) + property oracle evaluated on the JS results."""
import vcheck

PID = "C03"
MODULES = ["BeffVerif.Props.C03", "BeffVerif.Props.C03NoThrow", "BeffVerif.Props.C03Report", "BeffVerif.Props.C03Parse", "BeffVerif.Props.C03Declared", "BeffVerif.Props.C03Idem", "BeffVerif.Props.C03Order", "BeffVerif.Props.Consts"]
AUDIT = "BeffVerif/Audit/C03.lean"
TAGS = ("c03.",)
HYP = {"NoProtoNamedKeys": "D28", "IntersectionsOfObjects": "D29", "NoSplitIntersection": "D32", "NoAccessorNamedProps": "D33", "NoLaxObjectBesideBuiltin": "D33b"}
OPEN = [
    "parse_revalidates / parse_projection / parse_idempotent / keyOrder_only at full strength: false on the current code (D28, D29: negations proved in Props/C03.lean); the _partial versions under noProtoNamedProps ∧ intersectionsOfObjects are not yet proved — covered by the correspondence + JS property oracle",
    "no_foreign_throw is a theorem for all three entry points in a closed environment (validate_no_throw, report_no_throw, parseAV_no_throw after a successful validation, hence safeParse_no_throw and parse_only_documented_failure: Props/C03NoThrow, C03Report, C03Parse); outside the model: exceptions of the JavaScript engine the model has no counterpart for (getters, proxies, revoked objects, `toJSON` of non-Date objects inside deduplicateErrors — guarded since fix D35, values whose own `constructor` / `toString` is not a function — covered by the correspondence since round 4)",
    "no_mutation is trivial in the model (immutable values); mutation is observed only by the harness snapshot",
]
RULE = ("random (environment, Runtype tree, value, strict flag): trees are built from the REAL classes (compiler-like shapes: objects with "
        "optional/hostile keys, index signatures, discriminated unions with full variant shapes, intersections of objects, recursive named "
        "types, Map/Set/Date/bigint/typed arrays, formats, template regexes); values are type-directed members (60%), mutated near-misses (30%), "
        "hostile random values (10%). Reply = validate, safeParse under both key orders (data or full error trees), parse outcome/message; "
        "compared verbatim with the compiled Lean model. Property oracle on the JS results alone: agreement of the three entry points, no foreign "
        "throw, re-validation, projection, idempotence, key-order invariance, input snapshot unchanged. non-trivial = distinct request text")

def _pass(seed, count, label):
    def p(chk):
        lines = chk.gen_js("rt", seed, count)
        return vcheck.corr_pass(chk, "rt", lines, label, engine="js", oracle_filter=vcheck.tag_filter(TAGS),
                                known_matcher=vcheck.known_by_hyp(chk, HYP), view=vcheck.rt_view(PID))
    return p

def _corpus(chk):
    lines = vcheck.corpus_lines(PID)
    return vcheck.corr_pass(chk, "rt", lines, "rt(corpus)", engine="js", oracle_filter=vcheck.tag_filter(TAGS),
                            known_matcher=vcheck.known_by_hyp(chk, HYP), view=vcheck.rt_view(PID))

def run(chk):
    chk.build_js()
    quick = chk.tier == "quick"
    passes = [_corpus] + ([_pass(chk.seed * 100 + 7, 30000, "rt(random)")] if quick else
                          [_pass(chk.seed * 100 + k, 25000, f"rt(random#{k})") for k in range(8)])
    return vcheck.generic_run(chk, MODULES, AUDIT, passes,
        [PID + ": Model/{JsVal,RT,Validate,Parse,Report}.lean model codegen-v2.ts:34-2430 and err.ts by hand; property names outside the modelled vocabulary "
         "on non-plain objects, lone surrogates, cyclic inputs and getters are outside the model; a hole of a sparse array is modelled as the `undefined` every read of it gives (the harness keeps real holes on the JavaScript side)",
         PID + ": Node stripTypeScriptTypes (types removed only); custom formats registered by the harness naming convention"],
        OPEN, RULE, translators=("client_consts.py",))

def replay(chk, path):
    chk.build_js(); chk.build_lean(MODULES)
    lines = [l for l in open(path).read().split("\n") if l.strip() and not l.startswith(";")]
    st = vcheck.corr_pass(chk, "rt", lines, "rt(replay)", engine="js", oracle_filter=vcheck.tag_filter(TAGS),
                          known_matcher=vcheck.known_by_hyp(chk, HYP), view=vcheck.rt_view(PID))
    print(st)
    return chk.finish("proof", {"evaluations": len(lines), "distinct_nontrivial": st["nontrivial"]})
