"""C16 — schema printing (DESIGN.md §5 C16): Lean model of schema()/SchemaPrintingContext tied verbatim to the real emitted JSON;
search: python jsonschema (Draft 2020-12) on the real schemas + real validate."""
import vcheck
from checks import _schema_common as sc

PID = "C16"
MODULES = ["BeffVerif.Props.C16", "BeffVerif.Props.C16Order", "BeffVerif.Props.C16Names", "BeffVerif.Props.C16Refs"]
AUDIT = "BeffVerif/Audit/C16.lean"
TAGS = ("c16.",)
MODE = "schema-ctx"
HYP = {"NoThrowingCall": "D16c"}
OPEN = ["export_order_independent is a theorem: the DEFINITIONS (Props/C16Order: any two call histories — order, repetition, exceptions, fuel — agree on the definition of every name both define) and the SET OF NAMES (Props/C16Names: histories over the same set of parsers in which every call returns define exactly the names mentioned by a reachable runtype; no mark is left). Hypothesis Functional / Functional' = a name has one schema source, which only a synthetic variant name can violate (D16b). EVERY $ref RESOLVES (Props/C16Refs: `schema_refs` — every reference position of a returned schema and of every definition stored meanwhile, found by walking the keyword positions of the emitted vocabulary through annotateSchema / removeNullUnionBranch / tryMergeAllOfObjectSchemas / the index-signature shortcuts / the variant loop, holds the reference of a name some reachable runtype mentions; with names_complete: `returned_refs_resolve`, `definition_refs_resolve` — after a history of returning calls every reference position of every returned schema and of every exported definition names a definition of the export). Not proved: the set of names and the resolution of references for histories with exceptions (D16c lives there)",
        "D16b: synthetic variant names are `Discriminated<Key><Value><|hash32|>` — two different unions with colliding 32-bit hashes share names (recorded input); D16c: after a throwing call, definitions completed inside the failed cycle keep $refs to the failed type"]
RULE = ("random sets of 1–4 parsers sharing named / recursive types, random call sequences with repetition (1–6 calls), four refPathTemplate / container-key settings, "
        "optional namedTypeSchemaOverrides: after EVERY call the returned schema and exportDefinitions() are compared verbatim with the Lean context state machine; oracle on the "
        "real results: every definition equals the one a fresh context produces, nothing missing, repeated prints agree, every $ref resolves in the final export")

def _pass(seed, count, label):
    def p(chk):
        lines = chk.gen_js(MODE, seed, count, 8)
        return vcheck.corr_pass(chk, MODE, lines, label, engine=sc.engine(MODE), oracle_filter=vcheck.tag_filter(TAGS), known_matcher=vcheck.known_by_hyp(chk, HYP))
    return p

def _corpus(chk):
    lines = vcheck.corpus_lines(PID)
    return vcheck.corr_pass(chk, MODE, lines, "schema(corpus)", engine=sc.engine(MODE), oracle_filter=vcheck.tag_filter(TAGS), known_matcher=vcheck.known_by_hyp(chk, HYP))

def run(chk):
    chk.build_js()
    quick = chk.tier == "quick"
    passes = [_corpus] + ([_pass(chk.seed * 100 + 11, 3000, "schema(random)")] if quick else [_pass(chk.seed * 100 + k, 8000, f"schema(random#{k})") for k in range(6)])
    return vcheck.generic_run(chk, MODULES, AUDIT, passes,
        [PID + ": Model/{Schema,Hash}.lean model schema() of every class, SchemaPrintingContext, tryMergeAllOfObjectSchemas, removeNullUnionBranch, synthetic variant names (32-bit hash) by hand",
         PID + ": python jsonschema 4.x (Draft 2020-12) with the harness' custom formats is the judge of schema validity in the search; function types are excluded from the generators"],
        OPEN, RULE)

def replay(chk, path):
    chk.build_js(); chk.build_lean(MODULES)
    lines = [l for l in open(path).read().split("\n") if l.strip() and not l.startswith(";")]
    st = vcheck.corr_pass(chk, MODE, lines, "schema(replay)", engine=sc.engine(MODE), oracle_filter=vcheck.tag_filter(TAGS), known_matcher=vcheck.known_by_hyp(chk, HYP))
    print(st)
    return chk.finish("proof", {"evaluations": len(lines), "distinct_nontrivial": st["nontrivial"]})
